"""LLVM IR function -> z3 bit-vector verification conditions (E2 llvc).

Semantics implemented (DESIGN 2.2): every SSA value is a bit-vector of its width (i1 is a
Bool), pointers are 64-bit, one flat byte memory Array(BV64 -> BV8), little-endian multi-byte
accesses, guarded-SSA over the acyclic CFG (loops are unrolled to a bound with an unwinding
obligation), regions for the in-bounds obligations.

Obligation kinds produced:  trap (ubsantrap / __assert_fail reachable), bounds (load/store/
mem* outside every region), flag (nsw/nuw/exact/shift-amount side conditions: engine
exactness), unwind (loop bound), and the contract's functional / frame `ensures`."""
import os
import z3

from vlib.llvc import ir

BV64 = z3.BitVecSort(64)
BV8 = z3.BitVecSort(8)
MEM = z3.ArraySort(BV64, BV8)


class EncError(Exception):
    pass


def bv(v, w):
    return z3.BitVecVal(v, w)


def b2bv(b, w=1):
    return z3.If(b, bv(1, w), bv(0, w))


class Region:
    """A memory object.  Its bytes live in their own array indexed by the offset from `base`;
    distinct regions never alias (precondition / alloca semantics)."""

    def __init__(self, name, base, size, writable=True, kind="param", nullable=False):
        self.name, self.base, self.size, self.writable, self.kind = name, base, size, writable, kind
        self.nullable = nullable


class Ptr:
    """Pointer with provenance: numeric address = region.base + off (region None: absolute).
    `alts`, when set, lists guarded alternatives [(cond, region, off)] for a pointer that may point into
    different objects (phi/select of pointers to distinct globals); loads go through the alternatives."""
    __slots__ = ("region", "off", "alts")

    def __init__(self, region, off, alts=None):
        self.region, self.off, self.alts = region, off, alts

    def alternatives(self):
        return self.alts if self.alts else [(z3.BoolVal(True), self.region, self.off)]

    def addr(self):
        return self.off if self.region is None else self.region.base + self.off

    def __repr__(self):
        return "Ptr(%s,%s)" % (self.region.name if self.region else None, self.off)


def numeric(x):
    return x.addr() if isinstance(x, Ptr) else x


class Encoder:
    def __init__(self, mod, unroll=0):
        self.pz_stack = []
        self._pz = []
        self.mod = mod
        self.unroll = unroll
        self.regions = []
        self.assumptions = []      # facts about allocas etc. (part of the precondition)
        self.safety = []           # (name, kind, violated_condition)
        self.fresh = 0
        self.global_addr = {}
        self.depth = 0
        self.trap_names = {}
        # optional modes (per job / contract)
        self.div_fresh = False     # encode division by a constant with fresh quotient/remainder variables
        self._divs = {}            # (op family, id(a), c) -> (q, r)
        self._ub = {}              # z3 ast id -> known bound on the magnitude of a fresh quotient
        self.cut_inv = None        # loop cutpoints: callback(header, phis) -> invariant (see _encode_body)
        self.cut_axioms = None     # definitional facts about spec functions instantiated at the havoc state
        self.table_loads = []
        self.trip = None           # (loop ordinal, D): explore only executions whose loop #ordinal takes exactly D back edges
        self.trip_assumed = []     # the case hypothesis: conditions of the edges excluded by `trip`
        self.trip_cut = False      # a feasible back edge was excluded (so a case D+1 exists)
        self.cuts = {}             # header -> dict(entry_reach, phis, entry, havoc, back=[(cond, vals)])

    def fresh_bv(self, hint, w):
        self.fresh += 1
        return z3.BitVec("%s!%d" % (hint, self.fresh), w)

    # -- types -----------------------------------------------------------------
    def width(self, t):
        if isinstance(t, ir.IntTy):
            return t.bits
        if isinstance(t, ir.PtrTy):
            return 64
        if isinstance(t, ir.FloatTy):
            return t.bits
        raise EncError("no scalar width for %r" % (t,))

    def is_bool(self, t):
        return isinstance(t, ir.IntTy) and t.bits == 1

    # -- constants / operands ---------------------------------------------------
    def const(self, t, v, env):
        if isinstance(v, ir.Local):
            if v.name not in env:
                raise EncError("use of undefined value %%%s" % v.name)
            return env[v.name]
        if isinstance(v, ir.ConstInt):
            if self.is_bool(t):
                return z3.BoolVal(bool(v.v & 1))
            return bv(v.v, self.width(t))
        if isinstance(v, ir.ConstNull):
            return Ptr(None, bv(0, 64))
        if isinstance(v, ir.ConstUndef):
            if isinstance(t, (ir.StructTy, ir.ArrTy)):
                fs = t.fields if isinstance(t, ir.StructTy) else [t.el] * t.n
                return tuple(self.const(f, v, env) for f in fs)
            if isinstance(t, ir.PtrTy):
                return Ptr(None, self.fresh_bv("undefptr", 64))
            if self.is_bool(t):
                self.fresh += 1
                return z3.Bool("undef!%d" % self.fresh)
            return self.fresh_bv("undef", self.width(t))
        if isinstance(v, ir.ConstZero):
            if isinstance(t, ir.StructTy):
                return tuple(self.const(f, v, env) for f in t.fields)
            if self.is_bool(t):
                return z3.BoolVal(False)
            return bv(0, self.width(t))
        if isinstance(v, ir.ConstFloat):
            return self.float_bits(t, v.text)
        if isinstance(v, ir.Global):
            return self.global_address(v.name)
        if isinstance(v, ir.ConstExpr):
            if v.op in ("inttoptr", "ptrtoint", "bitcast", "addrspacecast"):
                st, sv = v.args[0]
                return self.cast(v.op, self.const(st, sv, env), st, v.ty)
            if v.op in ("trunc", "zext", "sext"):
                st, sv = v.args[0]
                return self.cast(v.op, self.const(st, sv, env), st, v.ty)
            if v.op == "getelementptr":
                (pt, pv) = v.args[0]
                base = self.const(pt, pv, env)
                return self.gep(v.extra, base, [(t2, self.const(t2, v2, env)) for (t2, v2) in v.args[1:]])
            if v.op == "icmp":
                (t1, v1), (t2, v2) = v.args
                return self.icmp(v.extra, t1, self.const(t1, v1, env), self.const(t2, v2, env))
            if v.op in ir.BINOPS:
                (t1, v1), (t2, v2) = v.args
                return self.binop(v.op, set(), t1, self.const(t1, v1, env), self.const(t2, v2, env), None, None)
        if isinstance(v, ir.ConstAgg):
            return tuple(self.const(et, ev, env) for (et, ev) in v.elems)
        raise EncError("constant %r of type %r" % (v, t))

    def float_bits(self, t, text):
        import struct
        if text.startswith("0x"):
            d = struct.unpack(">d", bytes.fromhex(text[2:].rjust(16, "0")))[0]
        else:
            d = float(text)
        if t.bits == 64:
            return bv(struct.unpack(">Q", struct.pack(">d", d))[0], 64)
        return bv(struct.unpack(">I", struct.pack(">f", d))[0], 32)

    def global_address(self, name):
        if name not in self.global_addr:
            t, init = self.mod.globals.get(name, (None, None))
            base = z3.BitVec("@" + name, 64)
            size = ir.sizeof(t) if t is not None else 1
            self.assumptions.append(z3.And(z3.UGE(base, bv(1 << 62, 64)), z3.ULT(base, bv((1 << 63) - size - 1, 64)),
                                           z3.URem(base, bv(16, 64)) == 0))
            rg = Region("@" + name, base, bv(size, 64), writable=False, kind="global")
            rg.init = self.global_bytes(t, init)
            self.regions.append(rg)
            self.global_addr[name] = rg
        return Ptr(self.global_addr[name], bv(0, 64))

    def global_bytes(self, t, init):
        """Initial contents of a constant global as a list of ints, or None if not modelled."""
        if isinstance(init, ir.ConstBytes):
            return list(init.data)
        if isinstance(init, ir.ConstZero) and t is not None:
            return [0] * ir.sizeof(t)
        if isinstance(init, ir.ConstAgg) and isinstance(t, ir.ArrTy) and isinstance(t.el, ir.IntTy):
            out = []
            nb = ir.sizeof(t.el)
            for (_, ev) in init.elems:
                if not isinstance(ev, ir.ConstInt):
                    return None
                out += list((ev.v % (1 << (8 * nb))).to_bytes(nb, "little"))
            return out
        return None

    def region_array(self, m, rg):
        """Array of region rg in memory state m (created lazily for allocas/globals)."""
        if rg.name not in m:
            if getattr(rg, "init", None) is not None:
                arr = z3.K(BV64, bv(0, 8))
                for i, b in enumerate(rg.init):
                    arr = z3.Store(arr, bv(i, 64), bv(b, 8))
            else:
                arr = z3.Array("mem0:" + rg.name, BV64, BV8)
            m = dict(m)
            m[rg.name] = arr
        return m, m[rg.name]

    def resize(self, x, sw, dw, signed):
        if sw == dw:
            return x
        if dw < sw:
            return z3.Extract(dw - 1, 0, x)
        return z3.SignExt(dw - sw, x) if signed else z3.ZeroExt(dw - sw, x)

    def cast(self, op, x, st, dt):
        if op in ("bitcast", "ptrtoint", "inttoptr", "addrspacecast"):
            if self.is_bool(st) or self.is_bool(dt):
                raise EncError("bitcast of i1")
            sp, dp = isinstance(st, ir.PtrTy), isinstance(dt, ir.PtrTy)
            if sp and dp:
                return x
            if sp:
                return self.resize(numeric(x), 64, self.width(dt), False)
            if dp:
                return Ptr(None, self.resize(x, self.width(st), 64, False))
            if isinstance(x, tuple):
                raise EncError("bitcast of aggregate")
            return self.resize(x, self.width(st), self.width(dt), False)
        if op == "trunc":
            if self.is_bool(dt):
                return z3.Extract(0, 0, x) == bv(1, 1)
            return z3.Extract(self.width(dt) - 1, 0, x)
        if op in ("zext", "sext"):
            dw = self.width(dt)
            if self.is_bool(st):
                return z3.If(x, bv((1 << dw) - 1 if op == "sext" else 1, dw), bv(0, dw))
            return self.resize(x, self.width(st), dw, op == "sext")
        raise EncError("cast %s is outside the subset" % op)

    def gep(self, base_ty, base, idx):
        if isinstance(base, Ptr):
            alts = [(c, r, self._gep(base_ty, o, idx)) for (c, r, o) in base.alts] if base.alts else None
            return Ptr(base.region, self._gep(base_ty, base.off, idx), alts)
        return self._gep(base_ty, base, idx)

    def _gep(self, base_ty, base, idx):
        addr = base
        t = base_ty
        first = True
        for (it, iv) in idx:
            iw = iv.size()
            off = iv if iw == 64 else z3.SignExt(64 - iw, iv)
            if first:
                addr = addr + off * bv(ir.sizeof(t), 64)
                first = False
                continue
            if isinstance(t, ir.StructTy):
                if not z3.is_bv_value(z3.simplify(iv)):
                    raise EncError("symbolic struct index")
                k = z3.simplify(iv).as_long()
                addr = addr + bv(ir.field_offset(t, k), 64)
                t = t.fields[k]
            elif isinstance(t, ir.ArrTy):
                addr = addr + off * bv(ir.sizeof(t.el), 64)
                t = t.el
            else:
                raise EncError("gep into %r" % (t,))
        return addr

    # -- memory -------------------------------------------------------------------
    def load(self, m, ptr, nbytes):
        val = None
        for (c, rg, off) in reversed(ptr.alternatives()):
            if rg is None:
                continue
            init = getattr(rg, "init", None)
            if init is not None and not rg.writable and nbytes == 1:
                self.table_loads.append((rg, off))         # witness terms for contracts (reads of constant tables)
            if init is not None and not rg.writable and nbytes == 1 and len(init) <= 64 and os.environ.get("VERIF_TABLE_ITE", "0") == "1" and not z3.is_bv_value(z3.simplify(off)):
                # small constant table read at a symbolic index: an explicit case analysis instead of array theory
                b = bv(0, 8)
                for i in reversed(range(len(init))):
                    b = z3.If(off == bv(i, 64), bv(init[i], 8), b)
                val = b if val is None else z3.If(c, b, val)
                continue
            m, arr = self.region_array(m, rg)
            bs = [z3.Select(arr, off + bv(i, 64)) for i in range(nbytes)]
            v = z3.Concat(*reversed(bs)) if nbytes > 1 else bs[0]
            val = v if val is None else z3.If(c, v, val)
        if val is None:
            raise EncError("load through a pointer without provenance")
        return m, val

    def store(self, m, ptr, val, nbytes):
        m, arr = self.region_array(m, ptr.region)
        for i in range(nbytes):
            arr = z3.Store(arr, ptr.off + bv(i, 64), z3.Extract(8 * i + 7, 8 * i, val))
        m = dict(m)
        m[ptr.region.name] = arr
        return m

    def in_bounds(self, ptr, nbytes, write):
        """z3 condition: [ptr, ptr+nbytes) lies inside the pointer's own region (nbytes: int or BV64)."""
        if not isinstance(ptr, Ptr):
            return z3.BoolVal(False)
        n = bv(nbytes, 64) if isinstance(nbytes, int) else nbytes
        cs = []
        for (cond, r, off) in ptr.alternatives():
            if r is None or (write and not r.writable):
                continue
            c = z3.And(cond, z3.ULE(off, r.size), z3.ULE(n, r.size - off))
            if r.nullable:
                c = z3.And(c, r.base != 0)
            cs.append(c)
        return z3.Or(cs) if cs else z3.BoolVal(False)

    def merge_mem(self, c, a, b):
        if a is b:
            return a
        out = {}
        for key in set(a) | set(b):
            x, y = a.get(key), b.get(key)
            if key == "__ptrs__":
                sh = dict(y or {})
                for kk, pv in (x or {}).items():
                    sh[kk] = self.ite(c, pv, sh[kk]) if kk in sh and sh[kk] is not pv else pv
                out[key] = sh
                continue
            if x is None:
                out[key] = y
            elif y is None:
                out[key] = x
            elif z3.eq(x, y):
                out[key] = x
            else:
                out[key] = z3.If(c, x, y)
        return out

    # -- arithmetic ------------------------------------------------------------------
    def binop(self, op, flags, t, a, b, reach, where):
        self._pz = []
        if self.is_bool(t):
            if op == "and":
                return z3.And(a, b)
            if op == "or":
                return z3.Or(a, b)
            if op == "xor":
                return z3.Xor(a, b)
            if op == "add" or op == "sub":
                return z3.Xor(a, b)
            if op == "mul":
                return z3.And(a, b)
            raise EncError("i1 %s" % op)
        w = self.width(t)

        def flag(name, ok):
            # a violated nsw/nuw/exact flag or an oversized shift makes the result poison; poison is
            # UB only where it is *used* (branch, address, stored value, divisor, return): see use()
            self._pz.append(z3.Not(ok))
        if op == "add":
            if "nuw" in flags:
                flag("add-nuw", z3.BVAddNoOverflow(a, b, False))
            if "nsw" in flags:
                flag("add-nsw", z3.And(z3.BVAddNoOverflow(a, b, True), z3.BVAddNoUnderflow(a, b)))
            return a + b
        if op == "sub":
            if "nuw" in flags:
                flag("sub-nuw", z3.BVSubNoUnderflow(a, b, False))
            if "nsw" in flags:
                flag("sub-nsw", z3.And(z3.BVSubNoOverflow(a, b), z3.BVSubNoUnderflow(a, b, True)))
            return a - b
        if op == "mul":
            if "nuw" in flags:
                flag("mul-nuw", z3.BVMulNoOverflow(a, b, False))
            if "nsw" in flags:
                flag("mul-nsw", z3.And(z3.BVMulNoOverflow(a, b, True), z3.BVMulNoUnderflow(a, b)))
            return a * b
        if op in ("udiv", "urem", "sdiv", "srem"):
            if reach is not None:
                self.safety.append(("trap:%s:div-by-zero" % where, "trap", z3.And(reach, b == 0)))
                if op in ("sdiv", "srem"):
                    self.safety.append(("trap:%s:sdiv-overflow" % where, "trap",
                                        z3.And(reach, a == bv(1 << (w - 1), w), b == bv(-1, w))))
            if self.div_fresh:
                bc = z3.simplify(b)
                if z3.is_bv_value(bc) and 2 <= bc.as_long() < (1 << (w - 1)):
                    q, rem = self.const_div(op[0], a, bc.as_long(), w)
                    if "exact" in flags:
                        flag(op + "-exact", rem == 0)
                    return q if op in ("udiv", "sdiv") else rem
            if op == "udiv":
                if "exact" in flags:
                    flag("udiv-exact", z3.URem(a, b) == 0)
                return z3.UDiv(a, b)
            if op == "urem":
                return z3.URem(a, b)
            if op == "sdiv":
                if "exact" in flags:
                    flag("sdiv-exact", z3.SRem(a, b) == 0)
                return a / b
            return z3.SRem(a, b)
        if op in ("shl", "lshr", "ashr"):
            flag("shift-amount", z3.ULT(b, bv(w, w)))
            if op == "shl":
                r = a << b
                if "nuw" in flags:
                    flag("shl-nuw", z3.LShR(r, b) == a)
                if "nsw" in flags:
                    flag("shl-nsw", (r >> b) == a)
                return r
            if op == "lshr":
                if "exact" in flags:
                    flag("lshr-exact", (z3.LShR(a, b) << b) == a)
                return z3.LShR(a, b)
            if "exact" in flags:
                flag("ashr-exact", ((a >> b) << b) == a)
            return a >> b
        if op == "and":
            return a & b
        if op == "or":
            return a | b
        if op == "xor":
            return a ^ b
        raise EncError("binop %s" % op)

    def magnitude_bound(self, a, sign, depth=0):
        """A syntactic upper bound on |a| (read as signed for sign == "s", unsigned otherwise)."""
        w = a.size()
        M = (1 << w) - 1 if sign == "u" else (1 << (w - 1))
        if a.get_id() in self._ub:
            return self._ub[a.get_id()]
        if depth > 6:
            return M
        if z3.is_bv_value(a):
            x = a.as_long()
            return x if sign == "u" or not (x >> (w - 1)) else (1 << w) - x
        kind = a.decl().kind()
        if kind == z3.Z3_OP_ZERO_EXT or (kind == z3.Z3_OP_CONCAT and z3.is_bv_value(a.arg(0)) and a.arg(0).as_long() == 0):
            return min(M, (1 << a.arg(a.num_args() - 1).size()) - 1) if a.num_args() <= 2 else M
        if kind == z3.Z3_OP_ITE:
            return max(self.magnitude_bound(a.arg(1), sign, depth + 1), self.magnitude_bound(a.arg(2), sign, depth + 1))
        return M

    def const_div(self, sign, a, c, w):
        """Quotient and remainder of a / c for a constant c > 0 as fresh variables with their defining
        constraints (a definitional extension: for every a exactly one (q, r) satisfies them).  Avoids
        divider circuits; multiplication by a constant is shifts and adds.  A syntactic magnitude bound
        is tracked so that repeated division reaches the constant 0 (loops over digits then unroll to
        exactly the number of digits the operand width allows)."""
        a = z3.simplify(a)
        key = (sign, a.get_id(), c)
        if key in self._divs:
            return self._divs[key][1:]
        if z3.is_bv_value(a):
            x = a.as_long()
            if sign == "u":
                q, r = bv(x // c, w), bv(x % c, w)
            else:
                sx = x - (1 << w) if x >> (w - 1) else x
                qq = abs(sx) // c * (1 if sx >= 0 else -1)
                q, r = bv(qq, w), bv(sx - qq * c, w)
            self._divs[key] = (a, q, r)
            return q, r
        M = (1 << w) - 1 if sign == "u" else (1 << (w - 1))
        ub = min(self.magnitude_bound(a, sign), M) // c
        if ub == 0:
            q, r = bv(0, w), a
            self._divs[key] = (a, q, r)
            return q, r
        q = self.fresh_bv("divq", w)
        r = a - bv(c, w) * q
        C = bv(c, w)
        if sign == "u":
            self.assumptions.append(z3.And(z3.ULE(q, bv(min(ub, M // c), w)), z3.ULE(C * q, a), z3.ULT(r, C)))
        else:
            self.assumptions.append(z3.And(q <= bv(min(ub, ((1 << (w - 1)) - 1) // c), w), q >= bv(-min(ub, (1 << (w - 1)) // c), w),
                                           z3.If(a >= 0, z3.And(r >= 0, r < C, q >= 0), z3.And(r <= 0, r > bv(-c, w), q <= 0))))
        self._ub[q.get_id()] = ub
        self._divs[key] = (a, q, r)
        other = self._divs.get(("s" if sign == "u" else "u", a.get_id(), c))
        if other is not None:
            # the same operand divided as signed and as unsigned: for a non-negative operand both are the floor
            # quotient (uniqueness of Euclidean division), stated so that the solver need not rediscover it
            self.assumptions.append(z3.Implies(a >= 0, q == other[1]))
        return q, r

    def icmp(self, pred, t, a, b):
        if isinstance(a, Ptr) or isinstance(b, Ptr):
            if isinstance(a, Ptr) and isinstance(b, Ptr) and a.region is b.region and pred in ("eq", "ne"):
                a, b = a.off, b.off
            else:
                a, b = numeric(a), numeric(b)
        if self.is_bool(t):
            a, b = b2bv(a), b2bv(b)
        return {
            "eq": lambda: a == b, "ne": lambda: a != b,
            "ult": lambda: z3.ULT(a, b), "ule": lambda: z3.ULE(a, b), "ugt": lambda: z3.UGT(a, b), "uge": lambda: z3.UGE(a, b),
            "slt": lambda: a < b, "sle": lambda: a <= b, "sgt": lambda: a > b, "sge": lambda: a >= b,
        }[pred]()

    # -- function encoding ---------------------------------------------------------------
    def topo(self, fn):
        """Topological order of the CFG; raises on a cycle unless unrolling is configured."""
        succ = {}
        for b in fn.blocks:
            t = b.term
            if t is None:
                raise EncError("block %s without terminator" % b.name)
            if t.op == "br":
                succ[b.name] = list(t.targets)
            elif t.op == "switch":
                succ[b.name] = [t.default] + [c[1] for c in t.cases]
            else:
                succ[b.name] = []
        order, state = [], {}
        back = []

        def dfs(n):
            state[n] = 1
            for s in succ[n]:
                if state.get(s) == 1:
                    back.append((n, s))
                elif s not in state:
                    dfs(s)
            state[n] = 2
            order.append(n)
        import sys
        sys.setrecursionlimit(100000)
        dfs(fn.blocks[0].name)
        order.reverse()
        return order, succ, back

    def encode(self, fn, args, mem, reach=None, prefix=""):
        """Encodes one call of fn.  Returns (ret_value, mem_out, returns_cond)."""
        if self.depth > 60:
            raise EncError("call depth exceeded in %s" % fn.name)
        order, succ, back = self.topo(fn)
        reach0 = z3.BoolVal(True) if reach is None else reach
        env = {}
        for (t, name), a in zip(fn.params, args):
            env[name] = a
        self.pz_stack.append({})
        try:
            return self._encode_body(fn, order, succ, back, env, mem, reach0, prefix)
        finally:
            self.pz_stack.pop()

    pz_stack = None

    def pz_of(self, v):
        """Poison condition (z3 Bool or None) of an operand."""
        if isinstance(v, ir.Local):
            return self.pz_stack[-1].get(v.name)
        return None

    def pz_or(self, *conds):
        cs = [c for c in conds if c is not None]
        if not cs:
            return None
        return cs[0] if len(cs) == 1 else z3.Or(cs)

    def use(self, r, where, what, *vals):
        """Using a poison value here would be UB: obligation that it is not poison."""
        pz = self.pz_or(*[self.pz_of(v) for v in vals])
        if pz is not None:
            self.safety.append(("flag:%s:poison-%s" % (where, what), "flag", z3.And(r, pz)))

    def loop_nests(self, fn, succ, back):
        """Natural loops of the back edges: {block: [header, ...] outermost first}."""
        pred = {}
        for a, ss in succ.items():
            for b_ in ss:
                pred.setdefault(b_, []).append(a)
        bodies = {}
        for (latch, header) in back:
            body = bodies.setdefault(header, {header})
            todo = [latch]
            while todo:
                n = todo.pop()
                if n in body:
                    continue
                body.add(n)
                todo.extend(pred.get(n, []))
        nests = {}
        for header, body in sorted(bodies.items(), key=lambda kv: -len(kv[1])):
            for n in body:
                nests.setdefault(n, []).append(header)
        return nests, bodies

    def merge_env(self, c, a, b):
        """Environment at a join: values that differ between the two incoming paths are ite-merged
        (this is what makes loop-carried and loop-exit values right after unrolling)."""
        if a is b:
            return a
        out = dict(b)
        for k, v in a.items():
            w = out.get(k)
            if w is None:
                out[k] = v
            elif w is not v:
                out[k] = self.ite(c, v, w)
        return out

    def merge_pz(self, c, a, b):
        if a is b:
            return a
        out = {}
        for k in set(a) | set(b):
            x, y = a.get(k), b.get(k)
            if x is None and y is None:
                continue
            if x is y:
                out[k] = x
            else:
                out[k] = z3.If(c, x if x is not None else z3.BoolVal(False), y if y is not None else z3.BoolVal(False))
        return out

    DEFAULT_UNROLL = 72

    def _encode_body(self, fn, order, succ, back, env0, mem, reach0, prefix):
        import heapq
        ti = {b_: i for i, b_ in enumerate(order)}
        nests, bodies = self.loop_nests(fn, succ, back) if back else ({}, {})
        backset = set(back)
        bound = self.unroll or self.DEFAULT_UNROLL
        entry = fn.blocks[0].name
        trip_hdr = None
        if self.trip is not None and self.depth == 0:
            tops = sorted([h for h in bodies if len(nests[h]) == 1], key=lambda h: ti[h])
            if self.trip[0] >= len(tops):
                if self.trip[1] != 0:
                    raise EncError("trip-count split: the function has no top-level loop #%d" % self.trip[0])
                # the optimiser unrolled the loop completely: one case, nothing to split
            else:
                trip_hdr = tops[self.trip[0]]

        def time_key(bn, counts):
            key = []
            for h, cnt in zip(nests.get(bn, []), counts):
                key += [ti[h], cnt]
            key.append(ti[bn])
            return key

        edges = {}   # (block, counts) -> list of (source block, cond, mem, env, pz)
        heap = [(time_key(entry, ()), entry, ())]
        done = set()
        rets = []
        while heap:
            _, bn, counts = heapq.heappop(heap)
            if (bn, counts) in done:
                continue
            done.add((bn, counts))
            blk = fn.bmap[bn]
            if bn == entry and not counts and (bn, counts) not in edges:
                r, m, env, PZ, inc = reach0, mem, dict(env0), {}, []
            else:
                inc = edges.get((bn, counts), [])
                if not inc:
                    continue
                r = z3.simplify(z3.Or([e[1] for e in inc]))
                if z3.is_false(r):
                    continue
                m, env, PZ = inc[-1][2], inc[-1][3], inc[-1][4]
                for (_, c, mm, ee, pp) in reversed(inc[:-1]):
                    m = self.merge_mem(c, mm, m)
                    env = self.merge_env(c, ee, env)
                    PZ = self.merge_pz(c, pp, PZ)
                env, PZ = dict(env), dict(PZ)
            self.pz_stack[-1] = PZ
            it = "".join("~%d" % c for c in counts)
            where0 = prefix + fn.name[:40] + ":" + bn + it
            # phis first (they read values along the incoming edges, in the predecessor's environment)
            phi_vals = []
            for ins in blk.instrs:
                if ins.op != "phi":
                    continue
                val = None
                pzv = None
                for (src, c, _, senv, spz) in reversed(inc):
                    for (v, lab) in ins.incoming:
                        if lab == src:
                            x = self.const(ins.ty, v, senv)
                            px = spz.get(v.name) if isinstance(v, ir.Local) else None
                            if val is None:
                                val, pzv = x, px
                            else:
                                val = self.ite(c, x, val)
                                if px is not None or pzv is not None:
                                    pzv = z3.If(c, px if px is not None else z3.BoolVal(False),
                                                pzv if pzv is not None else z3.BoolVal(False))
                if val is None:
                    raise EncError("phi without reachable incoming edge in %s" % where0)
                phi_vals.append((ins.res, val, pzv))
            if self.cut_inv is not None and bn in bodies:
                r, phi_vals = self.cut_header(fn, bn, bodies, nests, r, phi_vals, where0)
            for (res, val, pzv) in phi_vals:
                env[res] = val
                if pzv is not None:
                    PZ[res] = pzv
                else:
                    PZ.pop(res, None)
            n_i = 0
            trapped = False
            for ins in blk.instrs:
                if ins.op == "phi":
                    continue
                n_i += 1
                where = "%s#%d" % (where0, n_i)
                if ins.res is not None:
                    PZ.pop(ins.res, None)
                m, trapped = self.instr(ins, env, m, r, where, fn)
                if trapped:
                    break
            if trapped:
                continue

            def go(target, cond):
                cond = z3.simplify(cond)
                if z3.is_false(cond):
                    return
                if target in self.cuts and (bn, target) in backset:
                    # cut loop: the back edge is not followed; its values must re-establish the invariant
                    vals = []
                    for ins2 in fn.bmap[target].instrs:
                        if ins2.op != "phi":
                            continue
                        for (v, lab) in ins2.incoming:
                            if lab == bn:
                                vals.append(self.const(ins2.ty, v, env))
                                if isinstance(v, ir.Local) and PZ.get(v.name) is not None:
                                    self.safety.append(("flag:%s:poison-loop-carried" % where0, "flag", z3.And(cond, PZ[v.name])))
                                break
                    self.cuts[target]["back"].append((cond, vals))
                    return
                src_nest = nests.get(bn, [])
                cmap = dict(zip(src_nest, counts))
                if trip_hdr is not None and bn in bodies[trip_hdr]:
                    # path splitting on the trip count of one loop: in case D only executions that take exactly
                    # D back edges are followed; the excluded edges' conditions form the case hypothesis.
                    cur = cmap.get(trip_hdr, 0)
                    if (bn, target) in backset and target == trip_hdr:
                        if cur + 1 > self.trip[1] and self.trip[1] < bound:
                            self.trip_assumed.append(z3.Not(cond))
                            self.trip_cut = True
                            return
                    elif target not in bodies[trip_hdr] and fn.bmap[target].term.op != "unreachable" and cur < self.trip[1]:
                        self.trip_assumed.append(z3.Not(cond))
                        return
                tc = []
                over = False
                for h in nests.get(target, []):
                    cnt = cmap.get(h, 0)
                    if (bn, target) in backset and h == target:
                        cnt += 1
                        if cnt > bound:
                            over = True
                    tc.append(cnt)
                if over:
                    self.safety.append(("unwind:%s:loop-bound-%d" % (where0, bound), "unwind", cond))
                    return
                tc = tuple(tc)
                edges.setdefault((target, tc), []).append((bn, cond, m, env, PZ))
                heapq.heappush(heap, (time_key(target, tc), target, tc))
            t = blk.term
            if t.op == "br":
                if t.cond is None:
                    go(t.targets[0], r)
                else:
                    c = self.const(ir.IntTy(1), t.cond, env)
                    self.use(r, where0, "branch", t.cond)
                    go(t.targets[0], z3.And(r, c))
                    go(t.targets[1], z3.And(r, z3.Not(c)))
            elif t.op == "switch":
                self.use(r, where0, "switch", t.a)
                v = self.const(t.ty, t.a, env)
                w = self.width(t.ty)
                conds = []
                for (cv, lab) in t.cases:
                    c = v == bv(cv, w)
                    conds.append(c)
                    go(lab, z3.And(r, c))
                go(t.default, z3.And(r, z3.Not(z3.Or(conds))))
            elif t.op == "ret":
                if t.a is not None:
                    self.use(r, where0, "ret", t.a)
                rv = None if t.a is None else self.const(t.ty, t.a, env)
                rets.append((r, rv, m))
            elif t.op == "unreachable":
                # reaching `unreachable` without a trap call is UB
                self.safety.append(("trap:%s:unreachable" % where0, "trap", r))
        if not rets:
            return None, mem, z3.BoolVal(False)
        rc = z3.simplify(z3.Or([r for (r, _, _) in rets]))
        rv, mo = rets[-1][1], rets[-1][2]
        for (r, v, mm) in reversed(rets[:-1]):
            if rv is not None:
                rv = self.ite(r, v, rv)
            mo = self.merge_mem(r, mm, mo)
        return rv, mo, rc

    CUT_ALLOWED_CALLS = ("llvm.ubsantrap", "llvm.trap", "__assert_fail", "llvm.lifetime", "llvm.dbg", "llvm.sadd.with", "llvm.ssub.with",
                         "llvm.smul.with", "llvm.uadd.with", "llvm.usub.with", "llvm.umul.with")

    def cut_header(self, fn, bn, bodies, nests, r, phi_vals, where0):
        """Loop cutpoint (Floyd/Hoare): the header's phis are replaced by fresh variables that satisfy the
        contract's invariant, the body is encoded once from that arbitrary iteration, the back edges
        are recorded (not followed) and the loop's exits continue to the function's return.  The
        harness generates init (entry values satisfy the invariant) and step (every back edge
        re-establishes it) obligations; everything after the loop is proved from the invariant alone.
        Restrictions (checked): no nesting, the body does not write memory and calls nothing but traps."""
        if len(nests.get(bn, [])) != 1 or any(len(nests.get(b2, [])) != 1 for b2 in bodies[bn]):
            raise EncError("cut mode: nested loops at %s" % where0)
        if bn in self.cuts:
            raise EncError("cut mode: loop header %s reached twice" % where0)
        for b2 in bodies[bn]:
            for ins in fn.bmap[b2].instrs:
                if ins.op == "store" or (ins.op == "call" and not ins.callee.startswith(self.CUT_ALLOWED_CALLS)):
                    raise EncError("cut mode: loop body at %s writes memory or calls %s" % (where0, getattr(ins, "callee", "store")))
        entry, havoc, out = [], [], []
        for (res, val, pzv) in phi_vals:
            if isinstance(val, (Ptr, tuple)):
                raise EncError("cut mode: pointer/aggregate loop-carried value %%%s at %s" % (res, where0))
            if pzv is not None:
                self.safety.append(("flag:%s:poison-loop-entry" % where0, "flag", z3.And(r, pzv)))
            hv = z3.Bool("cut!%s!%s" % (bn, res)) if z3.is_bool(val) else z3.BitVec("cut!%s!%s" % (bn, res), val.size())
            entry.append(val)
            havoc.append(hv)
            out.append((res, hv, None))
        inv = self.cut_inv(bn, havoc, entry)
        if self.cut_axioms is not None:
            inv = z3.And(inv, self.cut_axioms(bn, havoc, entry))
        self.cuts[bn] = {"entry_reach": r, "entry": entry, "havoc": havoc, "back": [], "where": where0}
        return z3.And(r, inv), out

    def ite(self, c, a, b):
        if isinstance(a, tuple):
            return tuple(self.ite(c, x, y) for x, y in zip(a, b))
        if isinstance(a, Ptr) or isinstance(b, Ptr):
            if a.region is b.region and not a.alts and not b.alts:
                return Ptr(a.region, a.off if z3.eq(a.off, b.off) else z3.If(c, a.off, b.off))
            need_alts = bool(a.alts or b.alts) or (a.region is not None and b.region is not None and a.region is not b.region)
            alts = None
            if need_alts:
                alts = [(z3.And(c, ca), ra, oa) for (ca, ra, oa) in a.alternatives()] + \
                       [(z3.And(z3.Not(c), cb), rb, ob) for (cb, rb, ob) in b.alternatives()]
            if a.region is b.region:
                return Ptr(a.region, z3.If(c, a.off, b.off), alts)
            # re-express in the non-absolute region: numerically exact; a dereference through the
            # "wrong" provenance fails its bounds obligation (conservative), it is never unsound
            if a.region is None:
                return Ptr(b.region, z3.If(c, a.off - b.region.base, b.off), alts)
            if b.region is None:
                return Ptr(a.region, z3.If(c, a.off, b.off - a.region.base), alts)
            return Ptr(a.region, z3.If(c, a.off, b.region.base + b.off - a.region.base), alts)
        if z3.eq(a, b):
            return a
        return z3.If(c, a, b)

    def instr(self, ins, env, m, r, where, fn):
        op = ins.op
        PZ = self.pz_stack[-1]

        def setpz(*conds):
            pz = self.pz_or(*conds)
            if pz is not None:
                PZ[ins.res] = pz
        if op in ir.BINOPS:
            a = self.const(ins.ty, ins.a, env)
            b = self.const(ins.ty, ins.b, env)
            if op in ("udiv", "urem", "sdiv", "srem"):
                self.use(r, where, "divisor", ins.b)
            env[ins.res] = self.binop(op, ins.flags, ins.ty, a, b, r, where)
            setpz(self.pz_of(ins.a), self.pz_of(ins.b), *self._pz)
        elif op == "icmp":
            env[ins.res] = self.icmp(ins.pred, ins.opty, self.const(ins.opty, ins.a, env), self.const(ins.opty, ins.b, env))
            setpz(self.pz_of(ins.a), self.pz_of(ins.b))
        elif op in ir.CASTS:
            env[ins.res] = self.cast(op, self.const(ins.src_ty, ins.a, env), ins.src_ty, ins.ty)
            setpz(self.pz_of(ins.a))
        elif op == "select":
            c = self.const(ir.IntTy(1), ins.c, env)
            env[ins.res] = self.ite(c, self.const(ins.ty, ins.a, env), self.const(ins.ty, ins.b, env))
            pa, pb = self.pz_of(ins.a), self.pz_of(ins.b)
            arm = None
            if pa is not None or pb is not None:
                arm = z3.If(c, pa if pa is not None else z3.BoolVal(False), pb if pb is not None else z3.BoolVal(False))
            setpz(self.pz_of(ins.c), arm)
        elif op == "freeze":
            env[ins.res] = self.const(ins.ty, ins.a, env)
        elif op == "getelementptr":
            base = self.const(ins.ptr_ty, ins.ptr, env)
            env[ins.res] = self.gep(ins.base_ty, base, [(t, self.const(t, v, env)) for (t, v) in ins.idx])
            setpz(self.pz_of(ins.ptr), *[self.pz_of(v) for (t, v) in ins.idx])
        elif op == "alloca":
            n = 1
            if not isinstance(ins.n, int):
                raise EncError("variable-size alloca")
            size = ir.sizeof(ins.el) * n
            base = self.fresh_bv("alloca", 64)
            self.assumptions.append(z3.And(z3.UGE(base, bv(1 << 61, 64)), z3.ULT(base, bv((1 << 62) - size - 16, 64)),
                                           z3.URem(base, bv(max(1, ins.align), 64)) == 0))
            for rg in self.regions:
                if rg.kind == "alloca":
                    self.assumptions.append(z3.Or(z3.ULE(base + size, rg.base), z3.ULE(rg.base + rg.size, base)))
            rg = Region("alloca:" + where, base, bv(size, 64), True, "alloca")
            self.regions.append(rg)
            env[ins.res] = Ptr(rg, bv(0, 64))
        elif op == "load":
            self.use(r, where, "load-address", ins.ptr)
            addr = self.const(ir.PtrTy(ins.ty), ins.ptr, env)
            if isinstance(ins.ty, (ir.StructTy, ir.ArrTy)):
                raise EncError("aggregate load")
            w = self.width(ins.ty)
            nb = (w + 7) // 8
            self.safety.append(("bounds:%s:load%d" % (where, nb), "bounds", z3.And(r, z3.Not(self.in_bounds(addr, nb, False)))))
            if not isinstance(addr, Ptr) or (addr.region is None and not addr.alts):
                raise EncError("load through a pointer without provenance at %s" % where)
            m, val = self.load(m, addr, nb)
            if isinstance(ins.ty, ir.PtrTy):
                # pointer reload: provenance from the shadow map (pointer stores at concrete offsets), else absolute
                off = z3.simplify(addr.off)
                key = (addr.region.name, off.as_long()) if z3.is_bv_value(off) else None
                sh = m.get("__ptrs__", {})
                val = sh[key] if key in sh else Ptr(None, val)
            if self.is_bool(ins.ty):
                val = z3.Extract(0, 0, val) == bv(1, 1)
            elif w != nb * 8:
                val = z3.Extract(w - 1, 0, val)
            env[ins.res] = val
        elif op == "store":
            self.use(r, where, "store", ins.ptr, ins.a)
            addr = self.const(ir.PtrTy(ins.ty), ins.ptr, env)
            val = self.const(ins.ty, ins.a, env)
            if isinstance(val, tuple):
                raise EncError("aggregate store")
            if isinstance(val, Ptr):
                pval = val
                val = val.addr()
                addr0 = self.const(ir.PtrTy(ins.ty), ins.ptr, env)
                off = z3.simplify(addr0.off) if isinstance(addr0, Ptr) else None
                if off is None or not z3.is_bv_value(off) or addr0.region is None:
                    raise EncError("store of a pointer value at a symbolic address at %s" % where)
                m = dict(m)
                sh = dict(m.get("__ptrs__", {}))
                sh[(addr0.region.name, off.as_long())] = pval
                m["__ptrs__"] = sh
            if self.is_bool(ins.ty):
                val = b2bv(val, 8)
            w = val.size()
            nb = (w + 7) // 8
            if w != nb * 8:
                val = z3.ZeroExt(nb * 8 - w, val)
            self.safety.append(("bounds:%s:store%d" % (where, nb), "bounds", z3.And(r, z3.Not(self.in_bounds(addr, nb, True)))))
            if not isinstance(addr, Ptr) or addr.region is None or addr.alts:
                raise EncError("store through a pointer without (unique) provenance at %s" % where)
            m = self.store(m, addr, val, nb)
        elif op == "extractvalue":
            v = self.const(ins.agg_ty, ins.a, env)
            for i in ins.idx:
                v = v[i]
            env[ins.res] = v
            setpz(self.pz_of(ins.a))
        elif op == "insertvalue":
            v = self.const(ins.ty, ins.a, env)
            el = self.const(ins.el_ty, ins.el, env)

            def put(agg, idx):
                agg = list(agg)
                agg[idx[0]] = el if len(idx) == 1 else put(agg[idx[0]], idx[1:])
                return tuple(agg)
            env[ins.res] = put(v, ins.idx)
        elif op == "call":
            return self.call(ins, env, m, r, where, fn)
        elif op == "fcmp":
            raise EncError("fcmp is outside the subset")
        else:
            raise EncError("instruction %s" % op)
        return m, False

    def call(self, ins, env, m, r, where, fn):
        c = ins.callee
        args = [(t, self.const(t, v, env)) for (t, v) in ins.args if v is not None]
        if not (c.startswith("llvm.lifetime") or c.startswith("llvm.dbg")):
            self.use(r, where, "call-argument", *[v for (t, v) in ins.args if v is not None])
        if c == "llvm.ubsantrap":
            code = z3.simplify(args[0][1]).as_long()
            name = self.pending_assert or ("ubsan-%d" % code)
            self.pending_assert = None
            self.safety.append(("trap:%s:%s" % (where, name), "trap", r))
            return m, True
        if c == "llvm.trap":
            # the optimiser folded a sanitizer check whose failure it could decide statically into a bare trap
            self.safety.append(("trap:%s:llvm.trap" % where, "trap", r))
            return m, True
        if c in ("__assert_fail", "abort", "_ZSt9terminatev"):
            msg = "assert"
            if c == "__assert_fail":
                (t0, v0) = ins.args[0]
                msg = "assert(" + self.string_of(v0)[:70] + ")"
            if c == "__assert_fail" and fn is not None:
                # clang emits __assert_fail followed by ubsantrap(unreachable); name the pair once
                self.pending_assert = msg
                # is the next instruction a trap?  if not, record now
            self.safety.append(("trap:%s:%s" % (where, msg), "trap", r))
            self.pending_assert = None
            return m, True
        if c.startswith("llvm.lifetime") or c.startswith("llvm.dbg") or c.startswith("llvm.experimental.noalias") \
                or c == "llvm.assume" or c.startswith("llvm.invariant"):
            return m, False
        if c.startswith("llvm.bswap."):
            x = args[0][1]
            n = x.size() // 8
            env[ins.res] = z3.Concat(*[z3.Extract(8 * i + 7, 8 * i, x) for i in range(n)])
            return m, False
        for nm, f in (("llvm.umin.", lambda a, b: z3.If(z3.ULE(a, b), a, b)), ("llvm.umax.", lambda a, b: z3.If(z3.UGE(a, b), a, b)),
                      ("llvm.smin.", lambda a, b: z3.If(a <= b, a, b)), ("llvm.smax.", lambda a, b: z3.If(a >= b, a, b))):
            if c.startswith(nm):
                env[ins.res] = f(args[0][1], args[1][1])
                return m, False
        if c.startswith("llvm.abs."):
            x = args[0][1]
            env[ins.res] = z3.If(x < 0, -x, x)
            return m, False
        if c.startswith("llvm.fshl.") or c.startswith("llvm.fshr."):
            a, b, s = args[0][1], args[1][1], args[2][1]
            w = a.size()
            cat = z3.Concat(a, b)
            sh = z3.ZeroExt(w, z3.URem(s, bv(w, w)))
            if c.startswith("llvm.fshl."):
                env[ins.res] = z3.Extract(2 * w - 1, w, cat << sh)
            else:
                env[ins.res] = z3.Extract(w - 1, 0, z3.LShR(cat, sh))
            return m, False
        if c.startswith("llvm.ctpop.") or c.startswith("llvm.ctlz.") or c.startswith("llvm.cttz."):
            x = args[0][1]
            w = x.size()
            if c.startswith("llvm.ctpop."):
                env[ins.res] = z3.Sum([z3.ZeroExt(w - 1, z3.Extract(i, i, x)) for i in range(w)]) if w > 1 else x
            elif c.startswith("llvm.ctlz."):
                res = bv(w, w)
                for i in range(w):
                    res = z3.If(z3.Extract(i, i, x) == 1, bv(w - 1 - i, w), res)
                env[ins.res] = res
            else:
                res = bv(w, w)
                for i in reversed(range(w)):
                    res = z3.If(z3.Extract(i, i, x) == 1, bv(i, w), res)
                env[ins.res] = res
            return m, False
        for kind in ("sadd", "uadd", "ssub", "usub", "smul", "umul"):
            if c.startswith("llvm.%s.with.overflow." % kind):
                a, b = args[0][1], args[1][1]
                signed = kind[0] == "s"
                o = kind[1:]
                if o == "add":
                    res = a + b
                    ok = z3.And(z3.BVAddNoOverflow(a, b, signed), z3.BVAddNoUnderflow(a, b)) if signed else z3.BVAddNoOverflow(a, b, False)
                elif o == "sub":
                    res = a - b
                    ok = z3.And(z3.BVSubNoOverflow(a, b), z3.BVSubNoUnderflow(a, b, True)) if signed else z3.BVSubNoUnderflow(a, b, False)
                else:
                    res = a * b
                    ok = z3.And(z3.BVMulNoOverflow(a, b, signed), z3.BVMulNoUnderflow(a, b)) if signed else z3.BVMulNoOverflow(a, b, False)
                env[ins.res] = (res, z3.Not(ok))
                return m, False
        if c.startswith("llvm.memcpy.") or c.startswith("llvm.memmove.") or c in ("memmove", "memcpy"):
            dst, src, n = args[0][1], args[1][1], args[2][1]
            if n.size() != 64:
                n = z3.ZeroExt(64 - n.size(), n)
            ns = z3.simplify(n)
            self.safety.append(("bounds:%s:memcpy-dst" % where, "bounds", z3.And(r, n != 0, z3.Not(self.in_bounds(dst, n, True)))))
            self.safety.append(("bounds:%s:memcpy-src" % where, "bounds", z3.And(r, n != 0, z3.Not(self.in_bounds(src, n, False)))))
            if not (isinstance(dst, Ptr) and isinstance(src, Ptr) and dst.region is not None and src.region is not None):
                raise EncError("memcpy through pointers without provenance at %s" % where)
            if (c.startswith("llvm.memcpy.") or c == "memcpy") and dst.region is src.region:
                # overlapping memcpy is UB unless dst == src
                self.safety.append(("trap:%s:memcpy-overlap" % where, "trap",
                                    z3.And(r, n != 0, dst.off != src.off,
                                           z3.Or(z3.ULT(dst.off - src.off, n), z3.ULT(src.off - dst.off, n)))))
            m, sarr = self.region_array(m, src.region)
            m, darr = self.region_array(m, dst.region)
            if z3.is_bv_value(ns) and ns.as_long() <= 64:
                k = ns.as_long()
                vals = [z3.Select(sarr, src.off + bv(i, 64)) for i in range(k)]
                for i in range(k):
                    darr = z3.Store(darr, dst.off + bv(i, 64), vals[i])
            else:
                self.fresh += 1
                a = z3.BitVec("a!mm%d" % self.fresh, 64)
                darr = z3.Lambda([a], z3.If(z3.ULT(a - dst.off, n), z3.Select(sarr, src.off + (a - dst.off)), z3.Select(darr, a)))
            m = dict(m)
            m[dst.region.name] = darr
            if ins.res is not None:
                env[ins.res] = dst
            return m, False
        if c in ("bcmp", "memcmp"):
            # byte-wise comparison of n bytes: 0 iff equal; memcmp's sign is that of the first differing pair (as unsigned bytes)
            pa, pb, n = args[0][1], args[1][1], args[2][1]
            if n.size() != 64:
                n = z3.ZeroExt(64 - n.size(), n)
            if not (isinstance(pa, Ptr) and isinstance(pb, Ptr)):
                raise EncError("%s through pointers without provenance at %s" % (c, where))
            self.safety.append(("bounds:%s:%s-a" % (where, c), "bounds", z3.And(r, n != 0, z3.Not(self.in_bounds(pa, n, False)))))
            self.safety.append(("bounds:%s:%s-b" % (where, c), "bounds", z3.And(r, n != 0, z3.Not(self.in_bounds(pb, n, False)))))
            LIM = 128
            self.safety.append(("unwind:%s:%s-longer-than-%d" % (where, c, LIM), "unwind", z3.And(r, z3.UGT(n, bv(LIM, 64)))))
            res = bv(0, 32)
            for i in reversed(range(LIM)):
                m, xa = self.load(m, Ptr(pa.region, pa.off + bv(i, 64), [(cc, rg, o + bv(i, 64)) for (cc, rg, o) in pa.alts] if pa.alts else None), 1)
                m, xb = self.load(m, Ptr(pb.region, pb.off + bv(i, 64), [(cc, rg, o + bv(i, 64)) for (cc, rg, o) in pb.alts] if pb.alts else None), 1)
                res = z3.If(z3.And(z3.UGT(n, bv(i, 64)), xa != xb), z3.If(z3.ULT(xa, xb), bv(-1, 32), bv(1, 32)), res)
            env[ins.res] = res
            return m, False
        if c.startswith("llvm.memset."):
            dst, val, n = args[0][1], args[1][1], args[2][1]
            if n.size() != 64:
                n = z3.ZeroExt(64 - n.size(), n)
            self.safety.append(("bounds:%s:memset" % where, "bounds", z3.And(r, n != 0, z3.Not(self.in_bounds(dst, n, True)))))
            if not (isinstance(dst, Ptr) and dst.region is not None):
                raise EncError("memset through a pointer without provenance at %s" % where)
            m, darr = self.region_array(m, dst.region)
            ns = z3.simplify(n)
            if z3.is_bv_value(ns) and ns.as_long() <= 64:
                for i in range(ns.as_long()):
                    darr = z3.Store(darr, dst.off + bv(i, 64), val)
            else:
                self.fresh += 1
                a = z3.BitVec("a!ms%d" % self.fresh, 64)
                darr = z3.Lambda([a], z3.If(z3.ULT(a - dst.off, n), val, z3.Select(darr, a)))
            m = dict(m)
            m[dst.region.name] = darr
            return m, False
        if c in self.mod.functions:
            callee = self.mod.functions[c]
            self.depth += 1
            try:
                rv, m2, rc = self.encode(callee, [a for (_, a) in args], m, r, prefix=where.split(":")[0][:20] + ">")
            finally:
                self.depth -= 1
            if z3.is_false(z3.simplify(rc)):
                return m2, True          # no path returns from the callee: the continuation is unreachable
            if ins.res is not None:
                if rv is None:
                    raise EncError("callee %s returns no value at %s" % (c, where))
                env[ins.res] = rv
            return m2, False
        ext = getattr(self, "externals", {}).get(c)
        if ext is not None:
            rv, m = ext(self, [a for (_, a) in args], m, r, where)
            if ins.res is not None:
                env[ins.res] = rv
            return m, False
        raise EncError("call to external function %s is outside the subset" % c)

    pending_assert = None

    def string_of(self, v):
        try:
            if isinstance(v, ir.ConstExpr) and v.op == "getelementptr":
                g = v.args[0][1]
                t, init = self.mod.globals[g.name]
                return init.data.rstrip(b"\0").decode("latin1")
        except Exception:
            pass
        return "?"
