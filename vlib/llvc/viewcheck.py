"""Shared driver for the E2a scalar-view checks (C02 read, C03 write, C04 safety, C19 enum)."""
import json
import re

from vlib import core
from vlib.llvc import harness
from contracts import cpp_views

SAFETY = re.compile(r"\.(trap|bounds|flag|unwind)(\[|:)")


def wrapper_index(jobs):
    idx = {}
    for j in jobs:
        for (name, body, cref, params) in j["wrappers"]:
            idx[j.get("prefix", "") + name] = (j, name, body, params)
    return idx


def replay_obligation(ob, idx):
    """Native ASan+UBSan run of the same wrapper on the model's input."""
    wname = ob.name.split(".")[0]
    if wname not in idx or not ob.model:
        return {"reproduced": False, "error": "no wrapper/model for replay"}
    j, name, body, params = idx[wname]
    if ob.model.get("pbytes") is None and ob.model.get("n", 0) > 0:
        return {"reproduced": False, "error": "model buffer too large to materialise"}
    res = harness.native_run(j["includes"], name, body, ob.model, preamble=j.get("preamble", ""),
                             include_dirs=j.get("include_dirs", ()), extra_flags=[f for f in j.get("flags", ()) if f.startswith("-D")])
    if "error" in res:
        return {"reproduced": False, "error": res["error"]}
    out = {"native": {k: res.get(k) for k in ("exit", "ret", "obs", "p", "q")}, "stderr": res.get("stderr", "")[-600:]}
    if SAFETY.search(ob.name):
        out["reproduced"] = res["exit"] != 0
        out["how"] = "sanitizer report / abort in the native run" if out["reproduced"] else "native run exited 0"
        return out
    # functional obligation: the native run must show the same (contract-violating) behaviour the model predicts
    agree = res.get("exit") == 0 and res.get("ret") == ob.model.get("ret")
    mobs = ob.model.get("observables") or {}
    for k, v in mobs.items():
        if v is not None and (res.get("obs") or {}).get(k) != v:
            agree = False
    if ob.model.get("p_post") is not None and res.get("p") is not None and res["p"] != ob.model["p_post"]:
        agree = False
    out["reproduced"] = bool(agree)
    out["how"] = "native return value, observables and final buffer equal the model's (contract-violating) ones" if agree \
        else "native behaviour differs from the model (engine disagreement)"
    return out


def run(prop, args, Ts, whichs, keep=None, level="proof", extra=None, functions=(), max_replays=8, flags=(), prefix="",
        only_safety=False, more_jobs=(), enum_subset_in_quick=False, selfcheck=False):
    run_ = core.Run(prop, args.tier, level, "./check %s --tier %s" % (prop, args.tier))
    select = None
    if enum_subset_in_quick and args.tier == "quick":
        # every enum underlying type is checked in full by C19 on every run; here the quick tier keeps the two extremes
        select = lambda w, c, order, backing, ety: ety in (None, "ES8", "EU64")
        run_.extra["quick_tier_reduction"] = "EnumView: underlying types int8_t and uint64_t only (all eight are checked by C19 in the quick tier and here in the thorough tier)"
    jobs = cpp_views.jobs(Ts, whichs, args.tier, prefix=prefix, flags=flags, select=select)
    # second compile configuration: -DEMBOSS_NO_OPTIMIZATIONS (portable byte loops instead of memcpy/bswap/aligned casts, the
    # non-two's-complement ConvertToSigned).  Quick tier: containers of 24 and 64 bits, widths 1/7/13/full; thorough: everything.
    if args.tier == "quick":
        nsel = lambda w, c, order, backing, ety: c in (24, 64) and w in (1, 7, 13, c) and ety in (None, "ES16", "EU64")
        run_.extra["quick_tier_reduction_noopt"] = "EMBOSS_NO_OPTIMIZATIONS configuration: containers of 24 and 64 bits, widths 1, 7, 13 and full, enum underlying types int16_t/uint64_t (all in the thorough tier)"
    else:
        nsel = select
    jobs += cpp_views.jobs(Ts, whichs, args.tier, prefix=prefix + "noopt:", flags=list(flags) + ["-DEMBOSS_NO_OPTIMIZATIONS"], select=nsel)
    for j in jobs:
        j["only_safety"] = only_safety
    jobs += list(more_jobs)
    idx = wrapper_index(jobs)
    if args.replay:
        d = json.load(open(args.replay))
        ob = core.Obligation(d["obligation"], d["verdict"], model=d.get("model"))
        print(json.dumps(replay_obligation(ob, idx), indent=1, default=str))
        return 0
    harness.run_jobs(run_, jobs)
    if keep is not None:
        run_.obligations = [o for o in run_.obligations if keep(o.name) or o.verdict == core.ERROR]
    n = 0
    for ob in run_.obligations:
        if ob.verdict == core.REFUTED and n < max_replays:
            ob.replay = replay_obligation(ob, idx)
            n += 1
            if ob.replay.get("reproduced") is False and "engine disagreement" in ob.replay.get("how", ""):
                run_.error("model of %s does not replay natively: %s" % (ob.name, ob.replay))
    if selfcheck:
        differential(run_, jobs, args.tier)
    for f in functions:
        run_.function(f, "llvc: real template instantiated by an extern \"C\" wrapper, clang -O2 IR -> z3 bit-vector VCs")
    run_.assume(*core.STANDING_ASSUMPTIONS["E2"])
    run_.trust("clang++ 14 front end and -O2 pipeline", "z3 5.1.0", "llvc IR parser/encoder (/verif/vlib/llvc)",
               "harness wrappers instantiate the templates with the template arguments header_generator.py emits (checked on generated headers by the corpus checks)")
    run_.extra["configuration_space"] = {T + ":" + w: len(cpp_views.configs(T, args.tier, w)) for T in Ts for w in whichs}
    run_.extra["extraction_drops"] = "metadata (!tbaa, noundef, nonnull, range), llvm.lifetime.*, debug info; poison is tracked and must not reach a use"
    if extra:
        extra(run_)
    return run_


def differential(run_, jobs, tier):
    """Engine self-validation (bounded, not a proof obligation of the property): a sample of the wrappers is compiled
    natively with ASan+UBSan and run on random inputs that satisfy the contract's precondition; llvc's own evaluation of the
    IR on the same inputs must give the same return value, observables and final buffer.  A mismatch is a checker error
    (the engine's semantics are wrong), never a violation."""
    import copy
    import multiprocessing
    import random
    import time
    rng = random.Random(run_.seed + 11)
    cand = [j for j in jobs if j.get("includes") and len(j["wrappers"]) > 0 and not j.get("include_dirs")]
    pick = rng.sample(cand, min(len(cand), 12 if tier == "quick" else 60))
    djobs = []
    for j in pick:
        d = copy.copy(j)
        ws = list(j["wrappers"])
        rng.shuffle(ws)
        d["wrappers"] = ws[:2]
        d["trials"] = 4 if tier == "quick" else 10
        d["seed"] = rng.randrange(1 << 30)
        djobs.append(d)
    t0 = time.time()
    with multiprocessing.get_context("fork").Pool(min(16, len(djobs))) as pool:
        res = pool.map(_diff_safe, djobs, chunksize=1)
    runs = sum(r[1] for r in res)
    bad = [b for r in res for b in r[2]]
    run_.add(core.Obligation("selfcheck.llvc-evaluation-agrees-with-native-execution", core.BPASS if not bad else core.BFAIL, "llvc vs native ASan/UBSan", time.time() - t0, kind="bounded",
                             model={"mismatches": bad[:3]} if bad else None, detail="%d random runs of %d wrappers" % (runs, sum(len(d["wrappers"]) for d in djobs))))
    if bad:
        run_.error("engine self-validation failed: llvc's evaluation of the IR differs from native execution: %s" % json.dumps(bad[0], default=str)[:500])
    run_.bounded.append({"what": "llvc concrete evaluation vs native execution on random precondition-satisfying inputs (engine self-validation)", "evaluations": runs,
                         "distinct_nontrivial": runs, "seconds": round(time.time() - t0, 1)})


def _diff_safe(job):
    try:
        return harness.differential_job(job)
    except Exception as ex:
        return (job["tag"], 0, [{"wrapper": job["tag"], "error": "%s: %s" % (type(ex).__name__, str(ex)[:300])}])
