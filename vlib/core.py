"""Common layer: obligation registry, verdicts, evidence, known findings, exit codes.

Exit codes (DESIGN.md section 8):
  0  every obligation held (known findings printed as KNOWN-FINDING lines)
  1  at least one obligation refuted and not listed in known_findings.json
     -> a line "VIOLATION property=<id> replay=<path>[ no-failing-input-found]"
  2  no violation, but some obligation undecided by every back end
  3  checker error (unsupported construct, zero obligations, unsatisfiable
     precondition, anchor mismatch, model that does not replay, crash)
"""
import json
import os
import sys
import time
import traceback

VERIF = os.path.dirname(os.path.dirname(os.path.abspath(__file__)))
REPO = os.environ.get("VERIF_REPO", "/repo")
BUILD = os.path.join(VERIF, "build")

PROVED, REFUTED, UNKNOWN, ERROR = "proved", "refuted", "unknown", "error"
BPASS, BFAIL = "bounded-pass", "bounded-fail"

STANDING_ASSUMPTIONS = {
    "E1": [
        "SMT solvers z3 5.1 / cvc5 are sound",
        "pyvc encoding of the stated Python subset (DESIGN 2.1); Python ints are mathematical integers (exact in CPython)",
        "IR nodes are a tree: an expression node is not aliased with its argument nodes",
        "record shape invariants (numeric strings canonical, modulus > 0, 0 <= modular_value < modulus) are what earlier passes establish; cover-checked",
        "math.gcd satisfies its contract (g > 0, g | a, g | b)",
    ],
    "E2": [
        "SMT solvers z3 5.1 / cvc5 are sound",
        "clang 14 front end and -O2 pipeline; the LLVM-IR subset semantics implemented in llvc",
        "x86-64 data layout; machine integers are two's-complement bit-vectors (every wrap is an obligation or specified behaviour)",
        "regions do not wrap, lie below 2^62, are smaller than 2^60 bytes; distinct regions incl. allocas are disjoint unless the contract says otherwise",
        "pointer formation without dereference is not checked; EMBOSS_CHECK = assert",
    ],
    "E3": ["bounded stand-in: nothing beyond the stated bound is claimed"],
    "G": ["ground evaluation in CPython of the real module objects"],
}


class CheckerError(Exception):
    """Engine/contract problem, never a violation (exit 3)."""


class Obligation:

    def __init__(self, name, verdict, backend="", seconds=0.0, model=None, detail="", kind="proof", replay=None):
        self.name = name
        self.verdict = verdict
        self.backend = backend
        self.seconds = seconds
        self.model = model
        self.detail = detail
        self.kind = kind  # "proof" | "bounded" | "ground"
        self.replay = replay  # dict describing replay outcome on the real code

    def as_json(self):
        d = {"name": self.name, "verdict": self.verdict, "backend": self.backend,
             "seconds": round(self.seconds, 4), "kind": self.kind}
        if self.model is not None:
            d["model"] = self.model
        if self.detail:
            d["detail"] = self.detail[:2000]
        if self.replay is not None:
            d["replay"] = self.replay
        return d


def load_known_findings():
    p = os.path.join(VERIF, "known_findings.json")
    if not os.path.exists(p):
        return {"known": [], "fixed": []}
    with open(p) as f:
        return json.load(f)


class Run:
    """One run of one property's check."""

    def __init__(self, prop, tier, level, checker_cmd):
        self.prop = prop
        self.tier = tier
        self.level = level
        self.checker_cmd = checker_cmd
        self.seed = int(os.environ.get("VERIF_SEED", "0") or 0)
        self.t0 = time.time()
        self.obligations = []
        self.functions = []       # functions under contract (dotted names)
        self.assumptions = []
        self.trusted = []
        self.errors = []          # checker errors
        self.bounded = []         # dicts describing bounded parts
        self.extra = {}
        self.samples = []

    # -- recording -------------------------------------------------------
    def add(self, ob):
        self.obligations.append(ob)
        return ob

    def extend(self, obs):
        for o in obs:
            self.add(o)

    def function(self, name, how="contract"):
        ent = {"function": name, "how": how}
        if ent not in self.functions:
            self.functions.append(ent)

    def assume(self, *texts):
        for t in texts:
            if t not in self.assumptions:
                self.assumptions.append(t)

    def trust(self, *texts):
        for t in texts:
            if t not in self.trusted:
                self.trusted.append(t)

    def error(self, text):
        self.errors.append(text)
        print("CHECKER-ERROR: %s" % text[:600])

    # -- finishing -------------------------------------------------------
    def _replay_dir(self):
        d = os.path.join(BUILD, "replays", self.prop)
        os.makedirs(d, exist_ok=True)
        return d

    def write_replay(self, ob):
        safe = "".join(c if c.isalnum() or c in "._-" else "_" for c in ob.name)[:150]
        p = os.path.join(self._replay_dir(), safe + ".json")
        with open(p, "w") as f:
            json.dump({"property": self.prop, "obligation": ob.name, "verdict": ob.verdict,
                       "backend": ob.backend, "model": ob.model, "detail": ob.detail,
                       "replay": ob.replay, "repo": REPO}, f, indent=1, default=str)
        return p

    def finish(self):
        kf = load_known_findings()
        known = [k for k in kf.get("known", []) if k["property"] == self.prop]
        violations, known_hits, unknowns = [], [], []
        for ob in self.obligations:
            if ob.verdict in (REFUTED, BFAIL):
                hit = None
                for k in known:
                    if _finding_matches(k, ob):
                        hit = k
                        break
                if hit:
                    known_hits.append((hit, ob))
                else:
                    violations.append(ob)
            elif ob.verdict == UNKNOWN:
                unknowns.append(ob)
            elif ob.verdict == ERROR:
                self.errors.append("obligation %s: %s" % (ob.name, ob.detail[:300]))
                print("CHECKER-ERROR: obligation %s: %s" % (ob.name, ob.detail[:300]))
        # known findings that no longer reproduce are reported (not an error)
        printed = set()
        for k, ob in known_hits:
            if k["id"] not in printed:
                print("KNOWN-FINDING: property=%s %s [%s]" % (self.prop, k["what"], k["id"]))
                printed.add(k["id"])
        for k in known:
            if k["id"] not in printed:
                print("NOTE: known finding %s did not reproduce in this run (tier %s)" % (k["id"], self.tier))
        n_ob = len(self.obligations)
        if n_ob == 0:
            self.errors.append("zero obligations generated")
        self._check_baseline()
        for ob in violations:
            p = self.write_replay(ob)
            suffix = ""
            if not (ob.replay and ob.replay.get("reproduced")):
                suffix = " no-failing-input-found"
            print("VIOLATION property=%s replay=%s%s" % (self.prop, p, suffix))
            print("  obligation %s refuted by %s: %s" % (ob.name, ob.backend, (ob.detail or "")[:300]))
        for ob in unknowns[:20]:
            print("UNDECIDED obligation %s (%s) %s" % (ob.name, ob.backend, ob.detail[:200]))
        self._write_evidence(violations, known_hits, unknowns)
        if violations:
            code = 1
        elif self.errors:
            code = 3
        elif unknowns:
            code = 2
        else:
            code = 0
        proved = sum(1 for o in self.obligations if o.verdict == PROVED)
        bpass = sum(1 for o in self.obligations if o.verdict == BPASS)
        print("%s tier=%s: %d obligations, %d proved, %d bounded-pass, %d known-finding, %d violations, %d undecided, %d checker errors, %.1fs -> exit %d"
              % (self.prop, self.tier, n_ob, proved, bpass, len(known_hits), len(violations), len(unknowns), len(self.errors), time.time() - self.t0, code))
        return code

    def _check_baseline(self):
        """Vacuity/stability guard: obligation names recorded on the pinned tree must still be generated."""
        p = os.path.join(VERIF, "baselines", self.prop + ".json")
        names = sorted(set(x for x in (_stable_name(o.name) for o in self.obligations) if x))
        if os.environ.get("VERIF_WRITE_BASELINE") == "1":
            old = {}
            if os.path.exists(p):
                old = json.load(open(p))
            old[self.tier] = names
            with open(p, "w") as f:
                json.dump(old, f, indent=0, sort_keys=True)
            return
        if not os.path.exists(p):
            return
        base = json.load(open(p)).get(self.tier)
        if base is None:
            return
        missing = sorted(set(base) - set(names))
        if missing:
            self.error("obligations present in baseline but not generated (anchor mismatch / vacuity): %s"
                       % ", ".join(missing[:8]) + (" ... (%d)" % len(missing) if len(missing) > 8 else ""))

    def _write_evidence(self, violations, known_hits, unknowns):
        obs = self.obligations
        proof_obs = [o for o in obs if o.kind in ("proof", "ground")]
        bounded_obs = [o for o in obs if o.kind == "bounded"]
        kh_ids = {id(ob) for _, ob in known_hits}
        by_backend = {}
        for o in obs:
            b = by_backend.setdefault(o.backend or "?", {"n": 0, "seconds": 0.0})
            b["n"] += 1
            b["seconds"] = round(b["seconds"] + o.seconds, 3)
        samples = self.samples[:]
        step = max(1, len(obs) // 12)
        for o in obs[::step][:12]:
            samples.append(o.as_json())
        for o in violations[:10]:
            samples.append(o.as_json())
        cov = {
            # known findings are genuine, recorded defects: they are reported under their own key and are
            # not part of the obligation count of the claim
            "obligations": sum(1 for o in proof_obs if id(o) not in kh_ids),
            "discharged": sum(1 for o in proof_obs if o.verdict == PROVED),
            "refuted_known_findings": sum(1 for o in proof_obs if id(o) in kh_ids),
            "checker_cmd": self.checker_cmd,
            "trusted_base": self.trusted,
            "functions_under_contract": self.functions,
            "by_backend": by_backend,
            "solver_seconds": round(sum(o.seconds for o in obs), 2),
            "undecided": len(unknowns),
            "samples": samples,
            "bounded_parts": self.bounded,
            "checker_errors": self.errors,
        }
        # generic counts (always measured)
        cov["evaluations"] = len(obs) + sum(b.get("evaluations", 0) for b in self.bounded)
        distinct = len(set(o.name for o in obs)) + sum(b.get("distinct_nontrivial", 0) for b in self.bounded)
        cov["distinct_nontrivial"] = distinct
        cov["rule"] = self.extra.pop("rule", "one case per named obligation (distinct names) plus the bounded parts' own distinct non-trivial counts")
        if bounded_obs:
            cov["bounded_obligations"] = len(bounded_obs)
            cov["bounded_passed"] = sum(1 for o in bounded_obs if o.verdict == BPASS)
        cov.update(self.extra)
        ev = {
            "property_id": self.prop,
            "tier": self.tier,
            "seed": self.seed,
            "level": self.level,
            "coverage": cov,
            "assumptions": self.assumptions,
            "wall_s": round(time.time() - self.t0, 2),
            "violations": len(violations),
            "known_findings_reported": sorted({k["id"] for k, _ in known_hits}),
            "repo": REPO,
        }
        os.makedirs(os.path.join(VERIF, "evidence"), exist_ok=True)
        with open(os.path.join(VERIF, "evidence", self.prop + ".json"), "w") as f:
            json.dump(ev, f, indent=1, default=str)


def _stable_name(n):
    """Baseline granularity: contract clause names only - the [path/shape label] is dropped and
    obligations that mirror code structure (asserts, callee preconditions, raises) are folded
    into one name per function, so harmless refactorings do not change the baseline."""
    import re
    if "(optional-hint)" in n:
        return None            # an intermediate fact that is used when the solver finds it in time and skipped otherwise
    n = re.sub(r"\{.*\}$", "", n)          # witness part of bounded failures
    if n.startswith("order-independence."):
        return re.sub(r"#\d+\[.*$", "", n)
    n = re.sub(r"\[.*\]\.", ".", n)
    n = re.sub(r"\[[^\[\]]*\]$", "", n)   # trailing [scope / count] label
    # E2 wrapper names: drop the configuration (width/container/order/backing/enum type) and counts
    n = re.sub(r"^((?:noopt:)?(?:read|write)_[a-z]+)_[A-Za-z0-9]+_w\d+_c\d+_[A-Za-z]+_[a-z0-9_]+\.", r"\1.", n)
    n = re.sub(r"^(arith_[A-Za-z]+)_[a-z0-9_]+\.", r"\1.", n)
    n = re.sub(r"^((?:encode|decode)_)[a-z0-9_]+\.", r"\1.", n)
    n = re.sub(r"\{[^{}]*\}(:[a-z-]+)?", r"\1", n)      # selector values of case-split ensures
    n = re.sub(r"^(write_bcdwide)_w\d+_c\d+_[A-Za-z]+_[a-z]+\.", r"\1.", n)
    if re.search(r"\.(flag|unwind)(\[\d+\]|:.*)?$", n):
        return None            # presence depends on the optimiser's output, not on the contract
    n = re.sub(r"\.(trap|bounds)(\[\d+\]|:.*)$", r".\1", n)
    n = re.sub(r"\.[A-Za-z_0-9]+\.(assert|call-pre|no-raise)$", ".code-obligations", n)
    n = re.sub(r"\.(assert|call-pre|no-raise)$", ".code-obligations", n)
    return n


def _finding_matches(k, ob):
    """A known finding is keyed by obligation-name prefix/regex AND (optionally) a witness predicate."""
    import re
    if not re.fullmatch(k["obligation"], ob.name):
        return False
    w = k.get("witness")
    if not w:
        return True
    m = ob.model or {}
    blob = json.dumps(m, sort_keys=True, default=str) + " " + (ob.detail or "")
    return all(s in blob for s in w)


def main_wrapper(prop, fn):
    """Runs fn(tier) -> exit code with crash protection (crash => exit 3, never 1)."""
    import argparse
    ap = argparse.ArgumentParser()
    ap.add_argument("--tier", default=os.environ.get("VERIF_TIER", "quick"))
    ap.add_argument("--replay", default=None)
    args = ap.parse_args(sys.argv[2:])
    try:
        code = fn(args)
    except CheckerError as e:
        sys.stderr.write("CHECKER-ERROR: %s\n" % e)
        traceback.print_exc()
        code = 3
    except SystemExit as e:
        code = e.code
    except BaseException:
        traceback.print_exc()
        code = 3
    sys.exit(code)
