"""Syntactic frame (write-set) analysis of Python functions: the `assigns` clause of a contract.

For a function f with parameters P and an allowed set A (subset of P), the obligation `f assigns only A` is
discharged when the real AST of f contains
  * no `global` / `nonlocal` statement,
  * no assignment, augmented assignment or `del` whose target is an attribute or subscript rooted in a
    parameter outside A, in a module-level name, or in a local derived from one of those,
  * no call of a mutating method (append, add, update, ...) on such an object,
  * no parameter whose default value is a mutable display (list/dict/set literal or constructor).
"Derived" is tracked through plain assignments `x = <expr rooted in a tainted name>` (attribute, subscript,
name; not through calls: the result of a call is taken to be fresh, which is stated as an assumption).
The analysis is conservative for the constructs it knows and rejects nothing silently: every finding is
returned with its line; the caller turns a finding into a refuted obligation."""
import ast

MUTATORS = {"append", "extend", "add", "update", "insert", "pop", "remove", "clear", "discard", "setdefault", "sort", "reverse",
            "popitem", "CopyFrom", "MergeFrom", "ClearField", "appendleft", "extendleft", "__setitem__", "__delitem__", "__setattr__"}


def root_name(node):
    while isinstance(node, (ast.Attribute, ast.Subscript, ast.Starred)):
        node = node.value
    return node.id if isinstance(node, ast.Name) else None


def analyse(fn, allowed=(), module_names=()):
    """fn: ast.FunctionDef.  Returns a list of (lineno, text) findings."""
    params = [a.arg for a in fn.args.posonlyargs + fn.args.args + fn.args.kwonlyargs]
    if fn.args.vararg:
        params.append(fn.args.vararg.arg)
    if fn.args.kwarg:
        params.append(fn.args.kwarg.arg)
    findings = []
    for d in list(fn.args.defaults) + [d for d in fn.args.kw_defaults if d is not None]:
        if isinstance(d, (ast.List, ast.Dict, ast.Set, ast.ListComp, ast.DictComp, ast.SetComp)) or \
                (isinstance(d, ast.Call) and isinstance(d.func, ast.Name) and d.func.id in ("list", "dict", "set", "defaultdict")):
            findings.append((d.lineno, "mutable default argument `%s` (state shared between calls)" % ast.unparse(d)))
    forbidden = {p for p in params if p not in allowed} | set(module_names)
    local_fresh = set()
    # taint propagation to a fixed point over plain assignments
    changed = True
    tainted = set(forbidden)
    assigns = [n for n in ast.walk(fn) if isinstance(n, (ast.Assign, ast.AnnAssign, ast.For, ast.With, ast.NamedExpr))]
    while changed:
        changed = False
        for n in assigns:
            if isinstance(n, ast.Assign):
                pairs = [(t, n.value) for t in n.targets]
            elif isinstance(n, ast.AnnAssign):
                pairs = [(n.target, n.value)] if n.value is not None else []
            elif isinstance(n, ast.NamedExpr):
                pairs = [(n.target, n.value)]
            elif isinstance(n, ast.For):
                pairs = [(n.target, n.iter)]
            else:
                pairs = [(i.optional_vars, i.context_expr) for i in n.items if i.optional_vars is not None]
            for (t, v) in pairs:
                if isinstance(v, (ast.Attribute, ast.Subscript, ast.Name)) and root_name(v) in tainted:
                    for nm in [x.id for x in ast.walk(t) if isinstance(x, ast.Name)]:
                        if nm not in tainted and nm not in allowed:
                            tainted.add(nm)
                            changed = True
    for n in ast.walk(fn):
        if isinstance(n, (ast.Global, ast.Nonlocal)):
            findings.append((n.lineno, "`%s` statement" % ast.unparse(n)))
        targets = []
        if isinstance(n, ast.Assign):
            targets = n.targets
        elif isinstance(n, (ast.AugAssign, ast.AnnAssign)):
            targets = [n.target]
        elif isinstance(n, ast.Delete):
            targets = n.targets
        for t in targets:
            for tt in (t.elts if isinstance(t, (ast.Tuple, ast.List)) else [t]):
                if isinstance(tt, (ast.Attribute, ast.Subscript)) and root_name(tt) in tainted:
                    findings.append((tt.lineno, "writes `%s` (rooted in `%s`, outside the assigns clause)" % (ast.unparse(tt), root_name(tt))))
        if isinstance(n, ast.Call) and isinstance(n.func, ast.Attribute) and n.func.attr in MUTATORS and root_name(n.func.value) in tainted:
            findings.append((n.lineno, "calls `%s` (mutates `%s`, outside the assigns clause)" % (ast.unparse(n)[:80], root_name(n.func.value))))
    return sorted(set(findings))
