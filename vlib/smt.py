"""Solver portfolio: z3 (python API) first, then cvc5 CLI and z3-new CLI on the SMT-LIB dump."""
import os
import subprocess
import tempfile
import time

import z3

Z3_TIMEOUT_MS = int(os.environ.get("VERIF_Z3_MS", "10000"))
CLI_TIMEOUT_S = int(os.environ.get("VERIF_CLI_S", "60"))


def model_to_dict(m):
    out = {}
    for d in m.decls():
        try:
            v = m[d]
            if z3.is_int_value(v):
                out[d.name()] = v.as_long()
            elif z3.is_bv_value(v):
                out[d.name()] = v.as_long()
            elif z3.is_true(v) or z3.is_false(v):
                out[d.name()] = z3.is_true(v)
            else:
                out[d.name()] = str(v)
        except Exception:
            pass
    return out


def _run_cli(cmd, smt2, timeout):
    with tempfile.NamedTemporaryFile("w", suffix=".smt2", delete=False) as f:
        f.write(smt2)
        path = f.name
    try:
        t0 = time.time()
        try:
            r = subprocess.run(cmd + [path], capture_output=True, text=True, timeout=timeout)
            out = r.stdout.strip().splitlines()
            ans = out[0].strip() if out else "unknown"
        except subprocess.TimeoutExpired:
            ans = "unknown"
        return ans, time.time() - t0
    finally:
        os.unlink(path)


def check_unsat(assertions, timeout_ms=None, logic=None, want_model=True, portfolio=True):
    """Returns (answer, model_dict_or_None, backend, seconds); answer in unsat/sat/unknown."""
    t0 = time.time()
    s = z3.Solver()
    s.set("timeout", timeout_ms or Z3_TIMEOUT_MS)
    for a in assertions:
        s.add(a)
    r = s.check()
    if r == z3.unsat:
        return "unsat", None, "z3-5.1(py)", time.time() - t0
    if r == z3.sat:
        return "sat", model_to_dict(s.model()) if want_model else None, "z3-5.1(py)", time.time() - t0
    if not portfolio:
        return "unknown", None, "z3-5.1(py)", time.time() - t0
    smt2 = s.to_smt2()
    smt2 = "(set-logic ALL)\n" + smt2
    ans, _ = _run_cli(["/usr/bin/cvc5", "--nl-ext-tplanes", "--tlimit=%d" % (CLI_TIMEOUT_S * 1000)], smt2, CLI_TIMEOUT_S + 5)
    if ans == "unsat":
        return "unsat", None, "cvc5-1.0.3", time.time() - t0
    if ans == "sat":
        return "sat", None, "cvc5-1.0.3", time.time() - t0
    ans, _ = _run_cli(["z3-new", "-T:%d" % CLI_TIMEOUT_S], smt2, CLI_TIMEOUT_S + 5)
    if ans in ("unsat", "sat"):
        return ans, None, "z3-new-cli", time.time() - t0
    return "unknown", None, "z3+cvc5+z3cli", time.time() - t0


def cross_check_unsat(assertions):
    """Thorough tier: re-check an unsat answer with cvc5."""
    s = z3.Solver()
    for a in assertions:
        s.add(a)
    smt2 = "(set-logic ALL)\n" + s.to_smt2()
    ans, dt = _run_cli(["/usr/bin/cvc5", "--nl-ext-tplanes", "--tlimit=%d" % (CLI_TIMEOUT_S * 1000)], smt2, CLI_TIMEOUT_S + 5)
    return ans, dt
