"""Order-independence obligations for C17 (hash-seed independence).

Semantics: a dict iterates in insertion order (deterministic if the insertions are); a set/frozenset
iterates in an order that is an arbitrary function of the hash seed.  For every place where the real
source iterates over a set-typed expression, the obligation is that the function's observable result
does not depend on that order.  It is discharged syntactically by one of the rules
  sorted       the iteration is over sorted(S) (the result is then a function of the set)
  fold         the consumer is order-insensitive: set()/frozenset()/any()/all()/sum()/len()/min()/max(),
               a set or dict-by-key comprehension, membership test
  accumulate   the loop body only accumulates into sets (add/update/|=), assigns table entries by key,
               raises/asserts, or recurses into other accumulate-only statements
and is otherwise REFUTED (the replay then compiles a witness input under several PYTHONHASHSEEDs).
Set-typedness comes from local inference (set(), {..}, set comprehensions, frozenset, | & - ^) plus the
sidecar hints below (attributes and functions known to hold/return sets, containers of sets)."""
import ast

ORDER_INSENSITIVE_CONSUMERS = {"set", "frozenset", "any", "all", "sum", "len", "min", "max", "sorted", "bool", "dict"}
ORDER_SENSITIVE_CONSUMERS = {"list", "tuple", "join", "enumerate", "zip", "next", "iter", "reversed", "map", "filter", "extend"}


class Hints:
    def __init__(self, set_attrs=(), set_returning=(), containers_of_sets=(), set_names=(), table_targets=()):
        self.set_attrs = set(set_attrs)
        self.set_returning = set(set_returning)
        self.containers_of_sets = set(containers_of_sets)
        self.set_names = set(set_names)
        self.table_targets = set(table_targets)   # dicts/tables written by key inside set loops and only looked up afterwards


def _name_of(e):
    if isinstance(e, ast.Name):
        return e.id
    if isinstance(e, ast.Attribute):
        return e.attr
    return None


class Scanner(ast.NodeVisitor):
    def __init__(self, func, hints, src_lines, set_params=(), module_sets=()):
        self.func = func
        self.h = hints
        # module-level names bound to a set (e.g. a table of reserved words), unless the function rebinds them;
        # parameters that receive a set-typed argument at some call site in the module
        self.types = {n: "set" for n in module_sets}
        self.types.update({p: "set" for p in set_params})     # parameters that receive a set-typed argument at some call site in the module
        self.sites = []
        self.src = src_lines
        self.parents = {}
        for n in ast.walk(func):
            for c in ast.iter_child_nodes(n):
                self.parents[c] = n
        self._infer()

    # -- type inference ---------------------------------------------------------
    def _infer(self):
        for _ in range(3):
            for n in ast.walk(self.func):
                if isinstance(n, ast.Assign) and len(n.targets) == 1 and isinstance(n.targets[0], ast.Name):
                    if self.is_set(n.value):
                        self.types[n.targets[0].id] = "set"
                elif isinstance(n, ast.AugAssign) and isinstance(n.target, ast.Name) and isinstance(n.op, (ast.BitOr, ast.BitAnd, ast.Sub)):
                    if self.is_set(n.value):
                        self.types[n.target.id] = "set"
                elif isinstance(n, (ast.For, ast.comprehension)):
                    # for k, v in sorted(D.items()) where D is a container of sets: v is a set
                    it = n.iter
                    inner = it
                    if isinstance(inner, ast.Call) and _name_of(inner.func) == "sorted" and inner.args:
                        inner = inner.args[0]
                    if isinstance(inner, ast.Call) and isinstance(inner.func, ast.Attribute) and inner.func.attr in ("items", "values"):
                        cont = _name_of(inner.func.value)
                        if cont in self.h.containers_of_sets or self.types.get(cont) == "dict_of_sets":
                            tgt = n.target
                            if inner.func.attr == "items" and isinstance(tgt, ast.Tuple) and len(tgt.elts) == 2 and isinstance(tgt.elts[1], ast.Name):
                                self.types[tgt.elts[1].id] = "set"
                            elif inner.func.attr == "values" and isinstance(tgt, ast.Name):
                                self.types[tgt.id] = "set"
                    elif _name_of(inner) in self.h.containers_of_sets and isinstance(n.target, ast.Name) and not isinstance(inner, ast.Call):
                        # iterating a list of sets
                        if _name_of(inner) in ("item_sets", "item_list", "cycles"):
                            self.types[n.target.id] = "set"
                if isinstance(n, ast.Assign) and len(n.targets) == 1 and isinstance(n.targets[0], ast.Name):
                    v = n.value
                    if isinstance(v, ast.Call) and _name_of(v.func) == "defaultdict" and v.args and _name_of(v.args[0]) == "set":
                        self.types[n.targets[0].id] = "dict_of_sets"

    def is_set(self, e):
        if isinstance(e, (ast.Set, ast.SetComp)):
            return True
        if isinstance(e, ast.Name):
            return self.types.get(e.id) == "set" or e.id in self.h.set_names
        if isinstance(e, ast.Call):
            f = _name_of(e.func)
            if f in ("set", "frozenset"):
                return True
            if f in self.h.set_returning:
                return True
            if f in ("union", "intersection", "difference", "symmetric_difference", "copy") and isinstance(e.func, ast.Attribute) and self.is_set(e.func.value):
                return True
            if f == "get" and isinstance(e.func, ast.Attribute) and (_name_of(e.func.value) in self.h.containers_of_sets):
                return True
            return False
        if isinstance(e, ast.Attribute):
            return e.attr in self.h.set_attrs
        if isinstance(e, ast.BinOp) and isinstance(e.op, (ast.BitOr, ast.BitAnd, ast.Sub, ast.BitXor)):
            return self.is_set(e.left) or self.is_set(e.right)
        if isinstance(e, ast.Subscript):
            base = _name_of(e.value)
            if base in self.h.containers_of_sets or self.types.get(base) == "dict_of_sets":
                return not isinstance(e.slice, ast.Slice)
            return False
        if isinstance(e, ast.IfExp):
            return self.is_set(e.body) or self.is_set(e.orelse)
        return False

    # -- sites ------------------------------------------------------------------------
    def scan(self):
        for n in ast.walk(self.func):
            if isinstance(n, ast.For) and self.is_set(n.iter):
                self.sites.append(self.classify_for(n))
            elif isinstance(n, (ast.ListComp, ast.GeneratorExp, ast.SetComp, ast.DictComp)):
                for g in n.generators:
                    if self.is_set(g.iter):
                        self.sites.append(self.classify_comp(n, g))
            elif isinstance(n, ast.Call):
                f = _name_of(n.func)
                if f == "sorted" and n.args and self.is_set(n.args[0]):
                    self.sites.append(self.site(n, n.args[0], True, "sorted: iteration over sorted(S) is a function of the set"))
                if f in ORDER_SENSITIVE_CONSUMERS:
                    for a in n.args:
                        if self.is_set(a):
                            self.sites.append(self.classify_consumer(n, a, f))
                if isinstance(n.func, ast.Attribute) and n.func.attr == "pop" and self.is_set(n.func.value) and not n.args:
                    self.sites.append(self.site(n, n.func.value, False, "set.pop() returns an arbitrary element"))
            elif isinstance(n, ast.Starred) and self.is_set(n.value):
                self.sites.append(self.site(n, n.value, False, "star-unpacking of a set"))
        return self.sites

    def classify_consumer(self, call, arg, f):
        parent = self.parents.get(call)
        if isinstance(parent, ast.Call) and _name_of(parent.func) in ORDER_INSENSITIVE_CONSUMERS and call in parent.args:
            return self.site(call, arg, True, "fold: %s(S) is consumed by %s()" % (f, _name_of(parent.func)))
        if f in ("list", "tuple") and isinstance(parent, ast.Subscript) and self._singleton_guard(call, arg):
            return self.site(call, arg, True, "singleton: %s(S)[i] under a len(S) == 1 guard" % f)
        return self.site(call, arg, False, "order-sensitive consumer %s() of a set" % f)

    def _singleton_guard(self, node, arg):
        want = ast.unparse(arg)
        n = node
        while n in self.parents:
            p = self.parents[n]
            if isinstance(p, ast.If) and n in p.body:
                for c in ast.walk(p.test):
                    if isinstance(c, ast.Compare) and len(c.ops) == 1 and isinstance(c.ops[0], ast.Eq):
                        l, r = c.left, c.comparators[0]
                        if isinstance(l, ast.Call) and _name_of(l.func) == "len" and l.args and ast.unparse(l.args[0]) == want \
                                and isinstance(r, ast.Constant) and r.value == 1:
                            return True
            n = p
        return False

    def site(self, node, iter_expr, ok, why):
        return {"line": node.lineno, "expr": ast.unparse(iter_expr)[:80], "ok": ok, "why": why,
                "text": self.src[node.lineno - 1].strip()[:120]}

    def classify_comp(self, comp, gen):
        if isinstance(comp, (ast.SetComp, ast.DictComp)):
            return self.site(comp, gen.iter, True, "fold: set/dict comprehension")
        parent = self.parents.get(comp)
        if isinstance(parent, ast.Call):
            f = _name_of(parent.func)
            if f in ORDER_INSENSITIVE_CONSUMERS:
                return self.site(comp, gen.iter, True, "fold: consumed by %s()" % f)
            return self.site(comp, gen.iter, False, "comprehension over a set consumed by order-sensitive %s()" % f)
        return self.site(comp, gen.iter, False, "list/generator comprehension over a set yields an order-dependent sequence")

    def classify_for(self, n):
        bad = self._non_accumulating(n.body + n.orelse)
        if bad is None:
            return self.site(n, n.iter, True, "accumulate: loop body only adds to sets / assigns table entries by key")
        return self.site(n, n.iter, False, "loop over a set with an order-sensitive effect: `%s`" % bad)

    def _non_accumulating(self, stmts):
        """None if every statement is order-insensitive accumulation; else source text of the first offender."""
        for s in stmts:
            if isinstance(s, (ast.Pass, ast.Continue, ast.Assert, ast.Raise)):
                continue
            if isinstance(s, ast.Expr):
                v = s.value
                if isinstance(v, ast.Constant):
                    continue
                if isinstance(v, ast.Call) and isinstance(v.func, ast.Attribute) and v.func.attr in ("add", "update", "discard"):
                    continue
                return ast.unparse(s)[:70]
            if isinstance(s, ast.AugAssign) and isinstance(s.op, (ast.BitOr, ast.BitAnd)):
                continue
            if isinstance(s, ast.Assign):
                t = s.targets[0]
                if isinstance(t, ast.Subscript):
                    base = t.value
                    while isinstance(base, ast.Subscript):
                        base = base.value
                    if _name_of(base) in self.h.table_targets:
                        continue
                    return ast.unparse(s)[:70]
                if isinstance(t, ast.Name):
                    # a loop-local temporary: fine if it is only a pure expression of the loop variable
                    continue
                return ast.unparse(s)[:70]
            if isinstance(s, ast.If):
                r = self._non_accumulating(s.body + s.orelse)
                if r is not None:
                    return r
                continue
            if isinstance(s, ast.For):
                r = self._non_accumulating(s.body + s.orelse)
                if r is not None:
                    return r
                continue
            return ast.unparse(s)[:70]
        return None


def scan_module(path, hints, only_functions=None):
    """Returns {qualified function name: [sites]} for every function (incl. methods) of the file."""
    with open(path) as f:
        src = f.read()
    tree = ast.parse(src, path)
    lines = src.splitlines()
    out = {}

    funcs = {}

    def collect(body, prefix):
        for n in body:
            if isinstance(n, ast.FunctionDef):
                funcs[prefix + n.name] = n
                collect(n.body, prefix + n.name + ".")
            elif isinstance(n, ast.ClassDef):
                collect(n.body, prefix + n.name + ".")
    collect(tree.body, "")
    # module-level names bound to sets (NAME = set(...) / frozenset(...) / {...} / set operations on such names)
    module_sets = set()
    probe = Scanner(ast.parse("def _(): pass").body[0], hints, lines)
    for _round in range(2):
        for n in tree.body:
            if isinstance(n, ast.Assign) and len(n.targets) == 1 and isinstance(n.targets[0], ast.Name):
                probe.types = {m: "set" for m in module_sets}
                if probe.is_set(n.value):
                    module_sets.add(n.targets[0].id)
    # set-typedness flows into same-module callees through arguments (two rounds: helper of a helper)
    set_params = {q: set() for q in funcs}
    by_short = {}
    for q in funcs:
        by_short.setdefault(q.split(".")[-1], []).append(q)
    for _ in range(2):
        for q, fn in funcs.items():
            sc = Scanner(fn, hints, lines, set_params[q], module_sets)
            for c in ast.walk(fn):
                if not isinstance(c, ast.Call):
                    continue
                callee = _name_of(c.func)
                for tq in by_short.get(callee, []):
                    tf = funcs[tq]
                    names = [a.arg for a in tf.args.posonlyargs + tf.args.args]
                    if names and names[0] in ("self", "cls") and isinstance(c.func, ast.Attribute):
                        names = names[1:]
                    for i, a in enumerate(c.args):
                        if i < len(names) and sc.is_set(a):
                            set_params[tq].add(names[i])
                    for kw in c.keywords:
                        if kw.arg in names and sc.is_set(kw.value):
                            set_params[tq].add(kw.arg)
    for q, fn in funcs.items():
        if only_functions is None or q in only_functions:
            out[q] = Scanner(fn, hints, lines, set_params[q], module_sets).scan()
    return out
